//! C13: the real `InMemorySessionStore` and `SqliteSessionStore` driven in-process through
//! `SessionStore` (= the `SessionStorageBackend` trait object) on operation histories, sequential
//! and concurrent.
//!
//! Protocol (one JSON object per line):
//!   {"kind":"seq", "backend":"mem"|"sqlite", "mode":"virtual"|"real", "q":MS, "phase":MS,
//!    "states":[{..json object..},..], "ops":[OP,..]}
//!   {"kind":"conc", "backend":.., "q":MS, "states":[..], "pre":[OP..], "tasks":[[OP..],..], "post":[OP..]}
//! OP: ["create",id,state_idx,ttl_ms] ["update",id,state_idx,ttl_ms] ["update_ttl",id,ttl_ms] ["load",id]
//!     ["delete",id] ["change_id",old,new] ["delete_expired",batch|null] ["advance",ms]
//! ids are small integers (mapped to fixed UUIDs), states are indices into "states".
//! Time: in "virtual" mode `advance` moves every stored deadline into the past (memory: cfg hook
//! `verif_age`; SQLite: `UPDATE sessions SET deadline = deadline - ?`), and the whole history is
//! re-run on a fresh store if the wall clock crossed a second boundary while it ran, so no answer
//! depends on a wall-clock race. In "real" mode `advance` sleeps until `start + sum(advance)`.
//! Answers never contain wall-clock values: deadlines are reported relative to "now", rounded
//! up to the unit `q`.
use pavex_session::{SessionId, SessionStore};
use pavex_session::store::errors::*;
use pavex_session::store::SessionRecordRef;
use pavex_session_memory_store::InMemorySessionStore;
use pavex_session_sqlx::SqliteSessionStore;
use pxh::{Json, json};
use sqlx::Row as _;
use std::borrow::Cow;
use std::collections::HashMap;
use std::sync::Arc;
use std::sync::atomic::{AtomicU64, Ordering};
use std::time::{Duration, SystemTime, UNIX_EPOCH};

type State = HashMap<Cow<'static, str>, serde_json::Value>;

fn sid(i: u64) -> SessionId {
    let s = format!("5e551011-0000-4000-8000-{:012x}", i);
    serde_json::from_value(Json::String(s)).expect("valid uuid")
}

fn unsid(id: &SessionId) -> u64 {
    let s = id.inner().to_string();
    u64::from_str_radix(&s[24..], 16).unwrap_or(u64::MAX)
}

fn real_ms() -> u128 {
    SystemTime::now().duration_since(UNIX_EPOCH).unwrap().as_millis()
}

/// The store under test, reached the way an application reaches it (`SessionStore` wrapping the
/// backend), plus a raw handle for the verification-only side channel (dump / virtual time).
#[derive(Clone)]
struct Backend {
    store: Arc<SessionStore>,
    raw: Raw,
}

#[derive(Clone)]
enum Raw {
    Mem(InMemorySessionStore),
    Sqlite(sqlx::SqlitePool),
}

static DBSEQ: AtomicU64 = AtomicU64::new(0);

impl Backend {
    async fn new(which: &str, file_dir: Option<&str>) -> Result<Backend, String> {
        match which {
            "mem" => {
                let s = InMemorySessionStore::new();
                Ok(Backend { store: Arc::new(SessionStore::new(s.clone())), raw: Raw::Mem(s) })
            }
            "sqlite" => {
                let pool = match file_dir {
                    // the way the crate's own tests get a pool offline
                    None => sqlx::SqlitePool::connect("sqlite::memory:").await,
                    Some(dir) => {
                        let n = DBSEQ.fetch_add(1, Ordering::SeqCst);
                        let path = format!("{dir}/c13-{}-{n}.db", std::process::id());
                        let _ = std::fs::remove_file(&path);
                        let opts = sqlx::sqlite::SqliteConnectOptions::new()
                            .filename(&path)
                            .create_if_missing(true)
                            .journal_mode(sqlx::sqlite::SqliteJournalMode::Wal)
                            .busy_timeout(Duration::from_secs(20));
                        sqlx::sqlite::SqlitePoolOptions::new().max_connections(4).connect_with(opts).await
                    }
                }
                .map_err(|e| format!("pool: {e}"))?;
                let store = SqliteSessionStore::new(pool.clone());
                store.migrate().await.map_err(|e| format!("migrate: {e}"))?;
                Ok(Backend { store: Arc::new(SessionStore::new(store)), raw: Raw::Sqlite(pool) })
            }
            other => Err(format!("unknown backend {other:?}")),
        }
    }

    fn store(&self) -> &SessionStore {
        &self.store
    }

    /// Every record physically present: (id, deadline - now rounded up to `q` ms [in ms], state).
    async fn dump(&self, cx: &Ctx) -> Vec<(u64, i128, Json)> {
        let q = cx.q;
        let mut v: Vec<(u64, i128, Json)> = Vec::new();
        match &self.raw {
            Raw::Mem(s) => {
                for (id, ns) in s.verif_dump().await {
                    let st = match s.verif_state(&id).await {
                        Some(st) => cx.state_idx(&st),
                        None => Json::Null,
                    };
                    v.push((unsid(&id), ceil_div(ns, q * 1_000_000) * q, st));
                }
            }
            Raw::Sqlite(pool) => {
                let now_s = (real_ms() / 1000) as i128;
                let rows = sqlx::query("SELECT id, deadline, state FROM sessions").fetch_all(pool).await.unwrap();
                for r in rows.iter() {
                    let id: String = r.get(0);
                    let d: i64 = r.get(1);
                    let st = match r.try_get::<serde_json::Value, _>(2).ok().and_then(|v| serde_json::from_value::<State>(v).ok()) {
                        Some(st) => cx.state_idx(&st),
                        None => json!({"undecodable": true}),
                    };
                    let id = u64::from_str_radix(&id[24..], 16).unwrap_or(u64::MAX);
                    v.push((id, (d as i128 - now_s) * 1000, st));
                }
            }
        };
        v.sort_by_key(|x| x.0);
        v
    }

    async fn age(&self, ms: u64) {
        match &self.raw {
            Raw::Mem(s) => s.verif_age(Duration::from_millis(ms)).await,
            Raw::Sqlite(pool) => {
                sqlx::query("UPDATE sessions SET deadline = deadline - ?")
                    .bind((ms / 1000) as i64)
                    .execute(pool)
                    .await
                    .unwrap();
            }
        }
    }

    async fn close(self) {
        if let Raw::Sqlite(pool) = self.raw {
            pool.close().await;
        }
    }
}

fn ceil_div(a: i128, b: i128) -> i128 {
    let d = a.div_euclid(b);
    if a.rem_euclid(b) != 0 { d + 1 } else { d }
}

struct Ctx {
    states: Vec<State>,
    q: i128,
}

impl Ctx {
    fn state_idx(&self, s: &State) -> Json {
        match self.states.iter().position(|t| t == s) {
            Some(i) => json!(i),
            None => json!({"corrupt": serde_json::to_value(s).unwrap_or(Json::Null)}),
        }
    }
}

fn u(op: &[Json], i: usize) -> Option<u64> {
    op.get(i)?.as_u64()
}

/// Runs one trait method on the real store; maps errors to their kind.
async fn apply(b: &Backend, cx: &Ctx, op: &[Json]) -> Json {
    let st = b.store();
    let name = op.first().and_then(|v| v.as_str()).unwrap_or("");
    let bad = || json!("bad-op");
    match name {
        "create" | "update" => {
            let (Some(id), Some(s), Some(ttl)) = (u(op, 1), u(op, 2), u(op, 3)) else { return bad() };
            let Some(state) = cx.states.get(s as usize) else { return bad() };
            let rec = SessionRecordRef { state: Cow::Borrowed(state), ttl: Duration::from_millis(ttl) };
            if name == "create" {
                match st.create(&sid(id), rec).await {
                    Ok(()) => json!("ok"),
                    Err(CreateError::DuplicateId(_)) => json!("dup"),
                    Err(CreateError::SerializationError(_)) => json!("ser-err"),
                    Err(_) => json!("other-err"),
                }
            } else {
                match st.update(&sid(id), rec).await {
                    Ok(()) => json!("ok"),
                    Err(UpdateError::UnknownIdError(_)) => json!("unknown"),
                    Err(UpdateError::SerializationError(_)) => json!("ser-err"),
                    Err(_) => json!("other-err"),
                }
            }
        }
        "update_ttl" => {
            let (Some(id), Some(ttl)) = (u(op, 1), u(op, 2)) else { return bad() };
            match st.update_ttl(&sid(id), Duration::from_millis(ttl)).await {
                Ok(()) => json!("ok"),
                Err(UpdateTtlError::UnknownId(_)) => json!("unknown"),
                Err(_) => json!("other-err"),
            }
        }
        "load" => {
            let Some(id) = u(op, 1) else { return bad() };
            match st.load(&sid(id)).await {
                Ok(None) => Json::Null,
                Ok(Some(r)) => {
                    let ttl = ceil_div(r.ttl.as_nanos() as i128, cx.q * 1_000_000) * cx.q;
                    json!({"state": cx.state_idx(&r.state), "ttl": ttl as i64})
                }
                Err(LoadError::DeserializationError(_)) => json!("deser-err"),
                Err(_) => json!("other-err"),
            }
        }
        "delete" => {
            let Some(id) = u(op, 1) else { return bad() };
            match st.delete(&sid(id)).await {
                Ok(()) => json!("ok"),
                Err(DeleteError::UnknownId(_)) => json!("unknown"),
                Err(_) => json!("other-err"),
            }
        }
        "change_id" => {
            let (Some(a), Some(c)) = (u(op, 1), u(op, 2)) else { return bad() };
            match st.change_id(&sid(a), &sid(c)).await {
                Ok(()) => json!("ok"),
                Err(ChangeIdError::UnknownId(_)) => json!("unknown"),
                Err(ChangeIdError::DuplicateId(_)) => json!("dup"),
                Err(_) => json!("other-err"),
            }
        }
        "delete_expired" => {
            let batch = match op.get(1) {
                None | Some(Json::Null) => None,
                Some(v) => match v.as_u64().and_then(|n| std::num::NonZeroUsize::new(n as usize)) {
                    Some(n) => Some(n),
                    None => return bad(),
                },
            };
            match st.delete_expired(batch).await {
                Ok(n) => json!({"n": n}),
                Err(_) => json!("other-err"),
            }
        }
        _ => bad(),
    }
}

/// Shape check of one protocol op (same acceptance as the Lean driver's `op?`).
fn valid_op(op: &[Json], n_states: usize, allow_advance: bool) -> bool {
    let name = op.first().and_then(|v| v.as_str()).unwrap_or("");
    let nat = |i: usize| u(op, i).is_some();
    match name {
        "create" | "update" => nat(1) && nat(3) && u(op, 2).is_some_and(|s| (s as usize) < n_states),
        "update_ttl" => nat(1) && nat(2),
        "load" | "delete" => nat(1),
        "change_id" => nat(1) && nat(2),
        "delete_expired" => match op.get(1) {
            None | Some(Json::Null) => true,
            Some(v) => v.as_u64().is_some_and(|n| n > 0),
        },
        "advance" => allow_advance && nat(1),
        _ => false,
    }
}

fn ops_of(req: &Json, key: &str) -> Vec<Vec<Json>> {
    req.get(key)
        .and_then(|v| v.as_array())
        .map(|a| a.iter().map(|o| o.as_array().cloned().unwrap_or_default()).collect())
        .unwrap_or_default()
}

fn ctx_of(req: &Json) -> Result<Ctx, String> {
    let mut states = Vec::new();
    for s in req.get("states").and_then(|v| v.as_array()).cloned().unwrap_or_default() {
        let m: State = serde_json::from_value(s).map_err(|e| format!("state is not an object: {e}"))?;
        states.push(m);
    }
    let q = req.get("q").and_then(|v| v.as_u64()).unwrap_or(1000).max(1) as i128;
    Ok(Ctx { states, q })
}

fn dump_json(d: &[(u64, i128, Json)]) -> Json {
    Json::Array(d.iter().map(|(i, t, s)| json!([i, *t as i64, s])).collect())
}

/// One sequential op, including `advance` and the before/after dump around `delete_expired`.
async fn seq_op(b: &Backend, cx: &Ctx, op: &[Json], real: Option<(tokio::time::Instant, &mut u64)>) -> Json {
    let name = op.first().and_then(|v| v.as_str()).unwrap_or("");
    if name == "advance" {
        let Some(ms) = u(op, 1) else { return json!("bad-op") };
        match real {
            None => b.age(ms).await,
            Some((t0, cum)) => {
                *cum += ms;
                tokio::time::sleep_until(t0 + Duration::from_millis(*cum)).await;
            }
        }
        return json!("adv");
    }
    if name == "delete_expired" {
        let before = b.dump(cx).await;
        let mut r = apply(b, cx, op).await;
        let after = b.dump(cx).await;
        if let Some(o) = r.as_object_mut() {
            let removed: Vec<u64> =
                before.iter().filter(|x| !after.iter().any(|y| y.0 == x.0)).map(|x| x.0).collect();
            o.insert("removed".into(), json!(removed));
        }
        return r;
    }
    apply(b, cx, op).await
}

async fn run_seq(req: &Json) -> Json {
    let cx = match ctx_of(req) {
        Ok(c) => c,
        Err(e) => return json!({"r": "bad-op", "why": e}),
    };
    let backend = req.get("backend").and_then(|v| v.as_str()).unwrap_or("");
    let real = req.get("mode").and_then(|v| v.as_str()) == Some("real");
    let phase = req.get("phase").and_then(|v| v.as_u64()).unwrap_or(0) as u128;
    let slack = req.get("slack").and_then(|v| v.as_u64()).unwrap_or(150) as u128;
    let ops = ops_of(req, "ops");
    if !ops.iter().all(|o| valid_op(o, cx.states.len(), true)) {
        return json!({"r": "bad-op"});
    }
    let mut attempts = 0;
    loop {
        attempts += 1;
        let b = match Backend::new(backend, None).await {
            Ok(b) => b,
            Err(e) => return json!({"r": "bad-op", "why": e}),
        };
        if real {
            // start at wall-clock phase `phase` ms into a second
            let now = real_ms();
            let wait = (1000 + phase - now % 1000) % 1000;
            tokio::time::sleep(Duration::from_millis(wait as u64)).await;
        }
        let start_ms = real_ms();
        let t0 = tokio::time::Instant::now();
        let mut cum = 0u64;
        let mut res = Vec::new();
        let mut late = false;
        for op in &ops {
            let r = seq_op(&b, &cx, op, if real { Some((t0, &mut cum)) } else { None }).await;
            res.push(r);
            if real && t0.elapsed().as_millis() > cum as u128 + slack {
                late = true;
            }
        }
        let fin = b.dump(&cx).await;
        let end_ms = real_ms();
        b.close().await;
        let unreliable = if real {
            late || (start_ms % 1000).abs_diff(phase) > slack
        } else {
            start_ms / 1000 != end_ms / 1000
        };
        if unreliable && attempts < 6 {
            continue;
        }
        if unreliable {
            return json!({"r": "timing-unreliable"});
        }
        return json!({"r": "ok", "res": res, "final": dump_json(&fin)});
    }
}

static STAMP: AtomicU64 = AtomicU64::new(0);

async fn run_conc(req: &Json, file_dir: Option<&str>) -> Json {
    let cx = match ctx_of(req) {
        Ok(c) => Arc::new(c),
        Err(e) => return json!({"r": "bad-op", "why": e}),
    };
    let backend = req.get("backend").and_then(|v| v.as_str()).unwrap_or("");
    let pre = ops_of(req, "pre");
    let post = ops_of(req, "post");
    let tasks: Vec<Vec<Vec<Json>>> = req
        .get("tasks")
        .and_then(|v| v.as_array())
        .map(|ts| {
            ts.iter()
                .map(|t| t.as_array().map(|a| a.iter().map(|o| o.as_array().cloned().unwrap_or_default()).collect()).unwrap_or_default())
                .collect()
        })
        .unwrap_or_default();
    if !pre.iter().chain(post.iter()).all(|o| valid_op(o, cx.states.len(), true))
        || !tasks.iter().flatten().all(|o| valid_op(o, cx.states.len(), false))
    {
        return json!({"r": "bad-op"});
    }
    let mut attempts = 0;
    loop {
        attempts += 1;
        let b = match Backend::new(backend, file_dir).await {
            Ok(b) => b,
            Err(e) => return json!({"r": "bad-op", "why": e}),
        };
        let start_ms = real_ms();
        let mut pre_res = Vec::new();
        for op in &pre {
            pre_res.push(seq_op(&b, &cx, op, None).await);
        }
        STAMP.store(0, Ordering::SeqCst);
        let barrier = Arc::new(tokio::sync::Barrier::new(tasks.len().max(1)));
        let mut handles = Vec::new();
        for t in tasks.iter().cloned() {
            let (b, cx, barrier) = (b.clone(), cx.clone(), barrier.clone());
            handles.push(tokio::spawn(async move {
                barrier.wait().await;
                let mut out = Vec::new();
                for op in &t {
                    // give the other tasks a chance to get in between two calls of this one
                    tokio::task::yield_now().await;
                    let inv = STAMP.fetch_add(1, Ordering::SeqCst);
                    let r = apply(&b, &cx, op).await;
                    let resp = STAMP.fetch_add(1, Ordering::SeqCst);
                    out.push(json!({"r": r, "inv": inv, "resp": resp}));
                }
                out
            }));
        }
        let mut task_res = Vec::new();
        for h in handles {
            match h.await {
                Ok(v) => task_res.push(Json::Array(v)),
                Err(e) => task_res.push(json!({"task-panicked": e.to_string()})),
            }
        }
        let mut post_res = Vec::new();
        for op in &post {
            post_res.push(seq_op(&b, &cx, op, None).await);
        }
        let fin = b.dump(&cx).await;
        let end_ms = real_ms();
        b.close().await;
        if start_ms / 1000 != end_ms / 1000 {
            if attempts < 6 {
                continue;
            }
            return json!({"r": "timing-unreliable"});
        }
        return json!({"r": "ok", "pre": pre_res, "tasks": task_res, "post": post_res, "final": dump_json(&fin)});
    }
}

fn main() {
    let which = pxh::which();
    if which != "store" {
        eprintln!("c13: unknown model {which:?}");
        std::process::exit(2)
    }
    let file_dir = std::env::var("C13_DB_DIR").ok();
    let rt = tokio::runtime::Builder::new_multi_thread().worker_threads(4).enable_all().build().unwrap();
    pxh::serve(move |req| {
        rt.block_on(async {
            match req.get("kind").and_then(|v| v.as_str()) {
                Some("seq") => run_seq(req).await,
                Some("conc") => run_conc(req, file_dir.as_deref()).await,
                _ => json!({"r": "bad-op"}),
            }
        })
    });
}
