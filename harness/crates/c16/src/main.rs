//! C16: runs the REAL `pavex::server::Server` on 127.0.0.1:0 under a scripted loopback load, calls
//! `ServerHandle::shutdown` at a scripted instant and reports (a) the totally ordered event trace
//! recorded by the `cfg(pavex_verif)` trace points and (b) what the clients saw.
//!
//! request: {"workers":n, "mode":"graceful"|"forced", "timeout_ms":T, "call_delay_us":d,
//!           "conns":[{"pre":[req..], "post":[req..], "race":bool}..], "gates":[release_ms..],
//!           "second_call": null | {"mode":.., "timeout_ms":.., "delay_ms":..}}
//!   req = ["f"] (fast) | ["s", ms] (async sleep) | ["b", gate] (blocks the worker thread until the
//!   gate is released);  gate release_ms: -2 = just before the call, -1 = only at the end,
//!   k >= 0 = k ms after the call.
//! Scheduling control (optional): "parks":[{"point":P, "conn":i|null, "after":A, "ms":k}..] arms the
//!   one-shot failpoint `verif_trace::gate(P, ..)` of the server: the first thread reaching trace point P
//!   is parked there.  P in after_recv | after_spawn | acc_after_accept (armed right before client `conn`
//!   connects: the regular loop is parked holding that connection; optional "worker":w restricts the
//!   failpoint to that worker's thread) or after_shutdown | after_close |
//!   after_drain | after_drain_end | before_signal | before_notify (armed right before the call).
//!   Release: A = "before_call" (just before the call), "call" (k ms after the call), "parked" (k ms
//!   after the thread parked), "cmd" (k ms after the shutdown command has been put into the parked
//!   worker's inbox: the command has overtaken whatever the parked worker holds).
//! Connections are identified by their index in "conns" (probes: 900+i); never by port.
use pavex::Response;
use pavex::connection::ConnectionInfo;
use pavex::server::verif_trace as vt;
use pavex::server::{IncomingStream, Server, ServerConfiguration, ShutdownMode};
use pxh::{Json, json};
use std::collections::HashMap;
use std::sync::atomic::{AtomicBool, AtomicUsize, Ordering};
use std::sync::{Arc, Condvar, Mutex};
use std::time::{Duration, Instant};
use tokio::io::{AsyncReadExt, AsyncWriteExt};
use tokio::net::TcpStream;

struct Gates {
    open: Mutex<Vec<bool>>,
    cv: Condvar,
}

impl Gates {
    fn wait(&self, g: usize, cap: Duration) {
        let deadline = Instant::now() + cap;
        let mut o = self.open.lock().unwrap();
        while !o.get(g).copied().unwrap_or(true) {
            let now = Instant::now();
            if now >= deadline {
                return;
            }
            o = self.cv.wait_timeout(o, deadline - now).unwrap().0;
        }
    }
    fn release(&self, g: usize) {
        let mut o = self.open.lock().unwrap();
        if g < o.len() {
            o[g] = true;
        }
        self.cv.notify_all();
    }
    fn release_all(&self) {
        let mut o = self.open.lock().unwrap();
        o.iter_mut().for_each(|x| *x = true);
        self.cv.notify_all();
    }
}

#[derive(Clone)]
struct St {
    gates: Arc<Gates>,
}

/// The request handler run by the real server. Path: /<conn>/<req>/<kind>/<arg>.
async fn handler(
    req: http::Request<hyper::body::Incoming>,
    conn: Option<ConnectionInfo>,
    st: St,
) -> Response {
    let port = conn.map(|c| c.peer_addr().port()).unwrap_or(0) as u64;
    let path = req.uri().path().to_string();
    let parts: Vec<&str> = path.split('/').collect();
    let (c, r, kind, arg) = (
        parts.get(1).copied().unwrap_or(""),
        parts.get(2).and_then(|x| x.parse::<u64>().ok()).unwrap_or(0),
        parts.get(3).copied().unwrap_or("f"),
        parts.get(4).and_then(|x| x.parse::<u64>().ok()).unwrap_or(0),
    );
    vt::record("h_begin", port, r);
    match kind {
        "s" => tokio::time::sleep(Duration::from_millis(arg)).await,
        "b" => st.gates.wait(arg as usize, Duration::from_secs(5)),
        _ => {}
    }
    vt::record("h_end", port, r);
    Response::ok().set_typed_body(format!("{c}-{r}"))
}

#[derive(Clone, Debug)]
enum Req {
    Fast,
    Sleep(u64),
    Block(u64),
}

impl Req {
    fn parse(j: &Json) -> Option<Req> {
        let a = j.as_array()?;
        match a.first()?.as_str()? {
            "f" => Some(Req::Fast),
            "s" => Some(Req::Sleep(a.get(1)?.as_u64()?)),
            "b" => Some(Req::Block(a.get(1)?.as_u64()?)),
            _ => None,
        }
    }
    fn path(&self, c: usize, r: usize) -> String {
        match self {
            Req::Fast => format!("/{c}/{r}/f/0"),
            Req::Sleep(ms) => format!("/{c}/{r}/s/{ms}"),
            Req::Block(g) => format!("/{c}/{r}/b/{g}"),
        }
    }
}

/// What one client connection observed.
#[derive(Default)]
struct ClientObs {
    connected: AtomicBool,
    port: AtomicUsize,
    written: AtomicUsize,
    responses: AtomicUsize,
    bad_responses: AtomicUsize,
    script_done: AtomicBool,
    eof: AtomicBool,
    finished: AtomicBool,
}

/// Reads one HTTP/1.1 response with a Content-Length body. None on EOF / error / malformed.
async fn read_response(s: &mut TcpStream, buf: &mut Vec<u8>) -> Option<(u16, Vec<u8>)> {
    loop {
        if let Some(pos) = buf.windows(4).position(|w| w == b"\r\n\r\n") {
            let head = String::from_utf8_lossy(&buf[..pos]).to_string();
            let status: u16 = head.split_whitespace().nth(1)?.parse().ok()?;
            let mut cl = 0usize;
            for l in head.split("\r\n").skip(1) {
                if let Some((k, v)) = l.split_once(':') {
                    if k.eq_ignore_ascii_case("content-length") {
                        cl = v.trim().parse().ok()?;
                    }
                }
            }
            let total = pos + 4 + cl;
            while buf.len() < total {
                let mut tmp = [0u8; 1024];
                let n = s.read(&mut tmp).await.ok()?;
                if n == 0 {
                    return None;
                }
                buf.extend_from_slice(&tmp[..n]);
            }
            let body = buf[pos + 4..total].to_vec();
            buf.drain(..total);
            return Some((status, body));
        }
        let mut tmp = [0u8; 1024];
        let n = s.read(&mut tmp).await.ok()?;
        if n == 0 {
            return None;
        }
        buf.extend_from_slice(&tmp[..n]);
    }
}

/// One armed failpoint of the scenario.
#[derive(Clone, Debug)]
struct Park {
    point: String,
    /// arm right before this client connects (None: right before the call)
    conn: Option<usize>,
    /// only this worker's thread (None: whichever thread gets there first)
    worker: Option<u64>,
    after: String,
    ms: u64,
    /// gate id once armed
    id: Option<u64>,
}

const CONN_POINTS: [&str; 3] = ["after_recv", "after_spawn", "acc_after_accept"];
const CALL_POINTS: [&str; 6] =
    ["after_shutdown", "after_close", "after_drain", "after_drain_end", "before_signal", "before_notify"];

impl Park {
    fn parse(j: &Json, n_conns: usize) -> Option<Park> {
        let point = j.get("point")?.as_str()?.to_string();
        let conn = match j.get("conn") {
            None => None,
            Some(v) if v.is_null() => None,
            Some(v) => Some(v.as_u64()? as usize),
        };
        let worker = match j.get("worker") {
            None => None,
            Some(v) if v.is_null() => None,
            Some(v) => Some(v.as_u64()?),
        };
        let after = j.get("after")?.as_str()?.to_string();
        let ms = j.get("ms").and_then(|v| v.as_u64()).unwrap_or(0);
        let ok_point = match conn {
            Some(c) => c < n_conns && CONN_POINTS.contains(&point.as_str()),
            None => CALL_POINTS.contains(&point.as_str()) && after != "before_call",
        };
        if !ok_point || !["before_call", "call", "parked", "cmd"].contains(&after.as_str()) || ms > 5000 {
            return None;
        }
        Some(Park { point, conn, worker, after, ms, id: None })
    }
}

struct Signals {
    post: tokio::sync::watch::Sender<bool>,
    finish: tokio::sync::watch::Sender<bool>,
}

async fn client(
    idx: usize,
    addr: std::net::SocketAddr,
    pre: Vec<Req>,
    post: Vec<Req>,
    obs: Arc<ClientObs>,
    mut post_rx: tokio::sync::watch::Receiver<bool>,
    mut finish_rx: tokio::sync::watch::Receiver<bool>,
) {
    let run = async {
        let Ok(mut s) = TcpStream::connect(addr).await else { return };
        let _ = s.set_nodelay(true);
        obs.port.store(s.local_addr().map(|a| a.port()).unwrap_or(0) as usize, Ordering::SeqCst);
        obs.connected.store(true, Ordering::SeqCst);
        let mut buf = Vec::new();
        let mut k = 0usize;
        let mut alive = true;
        for (phase, reqs) in [(0, &pre), (1, &post)] {
            if phase == 1 {
                if post.is_empty() {
                    break;
                }
                while !*post_rx.borrow() {
                    if post_rx.changed().await.is_err() {
                        break;
                    }
                }
            }
            for r in reqs.iter() {
                let msg = format!("GET {} HTTP/1.1\r\nhost: x\r\n\r\n", r.path(idx, k));
                if s.write_all(msg.as_bytes()).await.is_err() {
                    alive = false;
                    break;
                }
                obs.written.fetch_add(1, Ordering::SeqCst);
                match read_response(&mut s, &mut buf).await {
                    Some((200, body)) if body == format!("{idx}-{k}").into_bytes() => {
                        obs.responses.fetch_add(1, Ordering::SeqCst);
                    }
                    Some(_) => {
                        obs.bad_responses.fetch_add(1, Ordering::SeqCst);
                    }
                    None => {
                        obs.eof.store(true, Ordering::SeqCst);
                        alive = false;
                        break;
                    }
                }
                k += 1;
            }
            if !alive {
                break;
            }
        }
        obs.script_done.store(true, Ordering::SeqCst);
        if alive {
            // stay open (idle keep-alive) until the server closes or the driver says finish
            let mut tmp = [0u8; 64];
            tokio::select! {
                r = s.read(&mut tmp) => { if matches!(r, Ok(0) | Err(_)) { obs.eof.store(true, Ordering::SeqCst); } }
                _ = async { while !*finish_rx.borrow() { if finish_rx.changed().await.is_err() { break; } } } => {}
            }
        }
    };
    run.await;
    obs.script_done.store(true, Ordering::SeqCst);
    obs.finished.store(true, Ordering::SeqCst);
}

fn mode_of(j: &Json, key_mode: &str, key_timeout: &str) -> Option<ShutdownMode> {
    match j.get(key_mode)?.as_str()? {
        "graceful" => Some(ShutdownMode::Graceful {
            timeout: Duration::from_millis(j.get(key_timeout)?.as_u64()?),
        }),
        "forced" => Some(ShutdownMode::Forced),
        _ => None,
    }
}

struct View {
    ev: Vec<vt::Event>,
    parked: Vec<u64>,
}

impl View {
    fn now() -> View {
        View { ev: vt::snapshot(), parked: vt::parked_now() }
    }
    fn has(&self, kind: &str, a: u64) -> bool {
        self.ev.iter().any(|e| e.kind == kind && e.a == a)
    }
    fn has2(&self, kind: &str, a: u64, b: u64) -> bool {
        self.ev.iter().any(|e| e.kind == kind && e.a == a && e.b == b)
    }
    fn count(&self, kind: &str) -> usize {
        self.ev.iter().filter(|e| e.kind == kind).count()
    }
    /// worker the connection with this port was dispatched to
    fn worker_of(&self, port: u64) -> Option<u64> {
        self.ev.iter().find(|e| e.kind == "dispatch_ok" && e.a == port).map(|e| e.b)
    }
    /// is some handler currently running (begun, not ended) on a connection of worker w?
    /// (a running *blocking* handler means the worker thread is stuck)
    fn busy_blocking(&self, w: u64, blocking: &HashMap<(u64, u64), bool>) -> bool {
        // parked at a failpoint (the acceptor parked: nothing moves)
        if self.parked.iter().any(|p| *p == w || *p == vt::ACCEPTOR) {
            return true;
        }
        self.ev.iter().any(|e| {
            e.kind == "h_begin"
                && blocking.get(&(e.a, e.b)).copied().unwrap_or(false)
                && self.worker_of(e.a) == Some(w)
                && !self.has2("h_end", e.a, e.b)
        })
    }
}

async fn wait_until(cap: Duration, mut f: impl FnMut() -> bool) -> bool {
    let deadline = Instant::now() + cap;
    loop {
        if f() {
            return true;
        }
        if Instant::now() >= deadline {
            return false;
        }
        tokio::time::sleep(Duration::from_micros(500)).await;
    }
}

async fn run_case(req: Json) -> Json {
    let Some(n_workers) = req.get("workers").and_then(|v| v.as_u64()) else {
        return json!({"r":"bad-op"});
    };
    if n_workers == 0 || n_workers > 16 {
        return json!({"r":"bad-op"});
    }
    let Some(mode) = mode_of(&req, "mode", "timeout_ms") else { return json!({"r":"bad-op"}) };
    let call_delay = Duration::from_micros(req.get("call_delay_us").and_then(|v| v.as_u64()).unwrap_or(0));
    let Some(conns) = req.get("conns").and_then(|v| v.as_array()) else { return json!({"r":"bad-op"}) };
    let gates_spec: Vec<i64> = req
        .get("gates")
        .and_then(|v| v.as_array())
        .map(|a| a.iter().map(|x| x.as_i64().unwrap_or(-1)).collect())
        .unwrap_or_default();
    let mut scripts = Vec::new();
    for c in conns {
        let parse = |k: &str| -> Option<Vec<Req>> {
            match c.get(k) {
                None => Some(vec![]),
                Some(v) => v.as_array()?.iter().map(Req::parse).collect(),
            }
        };
        let (Some(pre), Some(post)) = (parse("pre"), parse("post")) else { return json!({"r":"bad-op"}) };
        let race = c.get("race").and_then(|v| v.as_bool()).unwrap_or(false);
        scripts.push((pre, post, race));
    }
    let second = req.get("second_call").filter(|v| !v.is_null()).cloned();
    let mut parks: Vec<Park> = Vec::new();
    for p in req.get("parks").and_then(|v| v.as_array()).cloned().unwrap_or_default() {
        let Some(park) = Park::parse(&p, scripts.len()) else { return json!({"r":"bad-op"}) };
        parks.push(park);
    }

    // ---- start the real server -------------------------------------------------------------
    vt::disarm_all();
    vt::reset();
    let gates = Arc::new(Gates { open: Mutex::new(vec![false; gates_spec.len()]), cv: Condvar::new() });
    let incoming = IncomingStream::bind("127.0.0.1:0".parse().unwrap()).await.unwrap();
    let addr = incoming.local_addr().unwrap();
    let handle = Server::new()
        .set_config(ServerConfiguration::new().set_n_workers(n_workers as usize))
        .listen(incoming)
        .serve(handler, St { gates: gates.clone() });

    let (post_tx, post_rx) = tokio::sync::watch::channel(false);
    let (finish_tx, finish_rx) = tokio::sync::watch::channel(false);
    let sig = Signals { post: post_tx, finish: finish_tx };
    let obs: Vec<Arc<ClientObs>> = scripts.iter().map(|_| Arc::new(ClientObs::default())).collect();
    let mut tasks = Vec::new();
    let mut stall = false;
    // (port, req index) -> is a thread-blocking handler
    let mut blocking: HashMap<(u64, u64), bool> = HashMap::new();

    // ---- phase 1: open the non-racing connections one at a time and let each settle ----------
    for (i, (pre, post, race)) in scripts.iter().enumerate() {
        if *race {
            continue;
        }
        let mut my_gates: Vec<u64> = Vec::new();
        for p in parks.iter_mut().filter(|p| p.conn == Some(i)) {
            let id = vt::arm(&p.point, p.worker);
            p.id = Some(id);
            my_gates.push(id);
        }
        tasks.push(tokio::spawn(client(i, addr, pre.clone(), post.clone(), obs[i].clone(), post_rx.clone(), finish_rx.clone())));
        let o = obs[i].clone();
        if !wait_until(Duration::from_secs(2), || o.connected.load(Ordering::SeqCst) || o.finished.load(Ordering::SeqCst)).await {
            stall = true;
            continue;
        }
        let port = o.port.load(Ordering::SeqCst) as u64;
        for (k, r) in pre.iter().enumerate() {
            blocking.insert((port, k as u64), matches!(r, Req::Block(_)));
        }
        for (k, r) in post.iter().enumerate() {
            blocking.insert((port, (pre.len() + k) as u64), matches!(r, Req::Block(_)));
        }
        let settled = wait_until(Duration::from_secs(2), || {
            let v = View::now();
            if v.has("drop_conn", port) {
                return true;
            }
            // a thread is parked at a failpoint armed for this connection: it holds the connection; the
            // request (if any) must be on the wire before we go on
            if my_gates.iter().any(|g| vt::parked(*g).is_some()) {
                return pre.is_empty() || o.written.load(Ordering::SeqCst) >= 1;
            }
            let Some(w) = v.worker_of(port) else { return v.parked.contains(&vt::ACCEPTOR) };
            if pre.is_empty() {
                return v.has("c_poll", port) || v.busy_blocking(w, &blocking);
            }
            if o.script_done.load(Ordering::SeqCst) || o.responses.load(Ordering::SeqCst) == pre.len() {
                return true;
            }
            let k = o.responses.load(Ordering::SeqCst);
            if o.written.load(Ordering::SeqCst) <= k {
                return false;
            }
            // request k is on the wire and unanswered
            let slow = !matches!(pre[k], Req::Fast);
            if k + 1 == pre.len() && slow && v.has2("h_begin", port, k as u64) {
                return true;
            }
            v.busy_blocking(w, &blocking)
        })
        .await;
        if !settled {
            stall = true;
        }
    }

    // ---- phase 2: the shutdown call ----------------------------------------------------------
    for (g, rel) in gates_spec.iter().enumerate() {
        if *rel == -2 {
            gates.release(g);
        }
    }
    for p in parks.iter_mut() {
        match (p.conn, p.id) {
            (Some(_), Some(id)) if p.after == "before_call" => vt::release(id),
            (None, _) => p.id = Some(vt::arm(&p.point, p.worker)),
            _ => {}
        }
    }
    if !call_delay.is_zero() {
        tokio::time::sleep(call_delay).await;
    }
    let written_at_call: Vec<usize> = obs.iter().map(|o| o.written.load(Ordering::SeqCst)).collect();
    let responses_at_call: Vec<usize> = obs.iter().map(|o| o.responses.load(Ordering::SeqCst)).collect();
    let t_call = Instant::now();
    let h = handle.clone();
    let shutdown_task = tokio::spawn(async move {
        h.shutdown(mode).await;
        vt::record("returned", 0, 0);
        Instant::now()
    });
    let h2 = handle.clone();
    let handle_task = tokio::spawn(async move {
        h2.await;
        vt::record("handle_done", 0, 0);
        Instant::now()
    });
    let second_task = second.map(|s| {
        let h3 = handle.clone();
        tokio::spawn(async move {
            let delay = s.get("delay_ms").and_then(|v| v.as_u64()).unwrap_or(0);
            tokio::time::sleep(Duration::from_millis(delay)).await;
            if let Some(m) = mode_of(&s, "mode", "timeout_ms") {
                let t0 = Instant::now();
                h3.shutdown(m).await;
                vt::record("returned", 1, 0);
                return Some((t0, Instant::now()));
            }
            None
        })
    });
    drop(handle);
    let _ = sig.post.send(true);
    for (i, (pre, post, race)) in scripts.iter().enumerate() {
        if *race {
            tasks.push(tokio::spawn(client(i, addr, pre.clone(), post.clone(), obs[i].clone(), post_rx.clone(), finish_rx.clone())));
        }
    }
    let releaser = {
        let gates = gates.clone();
        let spec = gates_spec.clone();
        tokio::spawn(async move {
            let mut order: Vec<(i64, usize)> = spec.iter().enumerate().filter(|(_, r)| **r >= 0).map(|(g, r)| (*r, g)).collect();
            order.sort();
            for (ms, g) in order {
                let due = t_call + Duration::from_millis(ms as u64);
                tokio::time::sleep_until(due.into()).await;
                gates.release(g);
                vt::record("gate_release", g as u64, 0);
            }
        })
    };

    // one task per failpoint: wait for its condition, then release it
    let park_tasks: Vec<_> = parks
        .iter()
        .cloned()
        .map(|p| {
            tokio::spawn(async move {
                let Some(id) = p.id else { return (None, None) };
                if p.after == "before_call" {
                    return (vt::parked(id), Some(0u64));
                }
                if p.after != "call" {
                    // until a thread is parked there (it may never get there: Forced, or no connection to drain)
                    wait_until(Duration::from_secs(3), || {
                        vt::parked(id).is_some() || View::now().count("w_notify") == n_workers as usize
                    })
                    .await;
                    if vt::parked(id).is_none() {
                        vt::release(id);
                        return (None, None);
                    }
                }
                if p.after == "cmd" {
                    if let Some(w) = vt::parked(id) {
                        wait_until(Duration::from_secs(2), || {
                            w == vt::ACCEPTOR && View::now().count("cmd_sent") > 0 || View::now().has("acc_send", w)
                        })
                        .await;
                    }
                }
                let base = if p.after == "call" { t_call } else { Instant::now() };
                tokio::time::sleep_until((base + Duration::from_millis(p.ms)).into()).await;
                vt::release(id);
                (vt::parked(id), Some(Instant::now().duration_since(t_call).as_micros() as u64))
            })
        })
        .collect();

    let cap = match &req.get("mode").and_then(|v| v.as_str()) {
        Some("graceful") => Duration::from_millis(req.get("timeout_ms").and_then(|v| v.as_u64()).unwrap_or(0)) + Duration::from_secs(3),
        _ => Duration::from_secs(3),
    };
    let returned = tokio::time::timeout(cap, shutdown_task).await.ok().and_then(|r| r.ok());
    let handle_done = tokio::time::timeout(Duration::from_secs(2), handle_task).await.ok().and_then(|r| r.ok());
    let second_res = match second_task {
        Some(t) => tokio::time::timeout(Duration::from_secs(4), t).await.ok().and_then(|r| r.ok()).flatten(),
        None => None,
    };

    // ---- phase 3: probes after shutdown returned ----------------------------------------------
    let mut probes = Vec::new();
    if returned.is_some() {
        for (i, wait_ms) in [0u64, 100].iter().enumerate() {
            if *wait_ms > 0 {
                tokio::time::sleep(Duration::from_millis(*wait_ms)).await;
            }
            let outcome = match tokio::time::timeout(Duration::from_millis(500), TcpStream::connect(addr)).await {
                Ok(Ok(mut s)) => {
                    let msg = format!("GET /{}/0/f/0 HTTP/1.1\r\nhost: x\r\n\r\n", 900 + i);
                    let _ = s.write_all(msg.as_bytes()).await;
                    let mut buf = Vec::new();
                    match tokio::time::timeout(Duration::from_millis(300), read_response(&mut s, &mut buf)).await {
                        Ok(Some(_)) => "answered",
                        Ok(None) => "connected-then-closed",
                        Err(_) => "connected-silent",
                    }
                }
                Ok(Err(_)) => "refused",
                Err(_) => "connect-timeout",
            };
            probes.push(outcome);
        }
    }

    // ---- phase 4: wind down -------------------------------------------------------------------
    let _ = releaser.await;
    let mut parks_obs: Vec<Json> = Vec::new();
    for (p, t) in parks.iter().zip(park_tasks) {
        let (who, rel) = tokio::time::timeout(Duration::from_secs(6), t).await.ok().and_then(|r| r.ok()).unwrap_or((None, None));
        let who = who.or_else(|| p.id.and_then(vt::parked));
        parks_obs.push(json!({"point": p.point, "hit": who.is_some(),
            "worker": who.map(|w| if w == vt::ACCEPTOR { -1 } else { w as i64 }), "released_us": rel}));
    }
    vt::disarm_all();
    let all_done = |obs: &Vec<Arc<ClientObs>>| obs.iter().all(|o| o.script_done.load(Ordering::SeqCst));
    gates.release_all();
    wait_until(Duration::from_secs(3), || all_done(&obs)).await;
    let _ = sig.finish.send(true);
    for t in tasks {
        let _ = tokio::time::timeout(Duration::from_secs(2), t).await;
    }
    let teardown = wait_until(Duration::from_secs(4), || {
        let v = View::now();
        v.count("w_notify") == n_workers as usize
            && v.count("acc_exit") == 1
            // a task dropped before its first poll never ran its body: no `c_end` for it
            && v.count("c_poll") == v.count("c_end")
    })
    .await;
    tokio::time::sleep(Duration::from_millis(2)).await;

    // ---- report -------------------------------------------------------------------------------
    let ev = vt::snapshot();
    let mut port2idx: HashMap<u64, usize> = HashMap::new();
    let mut port_reuse = false;
    for (i, o) in obs.iter().enumerate() {
        if o.connected.load(Ordering::SeqCst) {
            if port2idx.insert(o.port.load(Ordering::SeqCst) as u64, i).is_some() {
                port_reuse = true;
            }
        }
    }
    let mut unknown: HashMap<u64, usize> = HashMap::new();
    let mut cid = |p: u64| -> u64 {
        if let Some(i) = port2idx.get(&p) {
            return *i as u64;
        }
        let n = unknown.len();
        (900 + *unknown.entry(p).or_insert(n)) as u64
    };
    let m = |x: u64| if x == 0 { "graceful" } else { "forced" };
    let mut trace: Vec<Json> = Vec::new();
    let mut tus: Vec<u64> = Vec::new();
    let mut wait_all = false;
    for e in &ev {
        let j = match e.kind {
            "call" => json!(["call", m(e.a)]),
            "cmd_sent" => json!(["cmdSent"]),
            "returned" => json!(["returned", e.a]),
            "handle_done" => json!(["handleDone"]),
            "accept" => json!(["accept", cid(e.a)]),
            "dispatch_ok" => json!(["dispatch", cid(e.a), e.b, "ok"]),
            "dispatch_full" => json!(["dispatch", cid(e.a), e.b, "full"]),
            "dispatch_closed" => json!(["dispatch", cid(e.a), e.b, "closed"]),
            "drop_conn" => json!(["dropConn", cid(e.a)]),
            "acc_shutdown" => json!(["accShutdown", m(e.a)]),
            "acc_send" => json!(["accSend", e.a]),
            "acc_wait_start" => json!(["accWaitStart"]),
            "acc_wait_all" => {
                wait_all = true;
                continue;
            }
            "acc_wait_end" => json!(["accWaitEnd", if wait_all { "all" } else { "timeout" }]),
            "acc_notify" => json!(["accNotify"]),
            "acc_exit" => json!(["accExit"]),
            "w_recv" => json!(["wRecv", e.a, cid(e.b)]),
            "w_shutdown" => json!(["wShutdown", e.a, m(e.b)]),
            "w_close" => json!(["wClose", e.a]),
            "w_drain" => json!(["wDrain", e.a, cid(e.b)]),
            "w_drain_end" => json!(["wDrainEnd", e.a]),
            "w_signal" => json!(["wSignal", e.a]),
            "w_wait_end" => json!(["wWaitEnd", e.a, if e.b == 1 { "timeout" } else { "idle" }]),
            "w_notify" => json!(["wNotify", e.a]),
            "c_poll" => json!(["cPoll", cid(e.a)]),
            "h_begin" => json!(["hBegin", cid(e.a), e.b]),
            "h_end" => json!(["hEnd", cid(e.a), e.b]),
            "c_end" => json!(["cEnd", cid(e.a), e.b == 1]),
            "gate_release" => json!(["gate", e.a]),
            "park" | "unpark" => json!([e.kind, if e.a == vt::ACCEPTOR { -1 } else { e.a as i64 },
                parks.iter().position(|p| p.id == Some(e.b)).map(|i| i as i64).unwrap_or(-1)]),
            other => json!(["unknown", other]),
        };
        trace.push(j);
        tus.push(e.t_us);
    }
    let conns_obs: Vec<Json> = obs
        .iter()
        .enumerate()
        .map(|(i, o)| {
            json!({
                "written_at_call": written_at_call[i],
                "responses_at_call": responses_at_call[i],
                "connected": o.connected.load(Ordering::SeqCst),
                "written": o.written.load(Ordering::SeqCst),
                "responses": o.responses.load(Ordering::SeqCst),
                "bad": o.bad_responses.load(Ordering::SeqCst),
                "eof": o.eof.load(Ordering::SeqCst),
            })
        })
        .collect();
    let ms = |t: Option<Instant>| t.map(|t| t.duration_since(t_call).as_micros() as u64);
    json!({
        "r": if port_reuse { "port-reuse" } else { "ok" },
        "trace": trace,
        "obs": {"conns": conns_obs, "parks": parks_obs, "probes": probes, "stall": stall, "teardown": teardown,
                 "returned": returned.is_some(), "handle_done": handle_done.is_some(),
                 "second_returned": second_res.is_some()},
        "timing": {"tus": tus, "returned_us": ms(returned), "handle_us": ms(handle_done),
                    "second_us": second_res.map(|(a, b)| b.duration_since(a).as_micros() as u64)},
    })
}

fn main() {
    match pxh::which().as_str() {
        "server" => pxh::serve_async(run_case),
        other => {
            eprintln!("c16: unknown model {other:?}");
            std::process::exit(2)
        }
    }
}
