//! C11 / C12: histories of requests against the REAL `Session` state machine, `IncomingSession::extract`,
//! `finalize_session`, `extract_request_cookies` / `inject_response_cookies`, a biscotti `Processor`
//! and `InMemorySessionStore` (wrapped by a recording backend). The cookie set by one response is what a
//! later request presents. Session ids are reported as first-seen indices.
//!
//! Protocol (one line = one history): see `tools/checks/c11.py`.
use pxh::{Json, json};
use std::cell::RefCell;
use std::future::Future;
use std::pin::Pin;
use std::sync::{Arc, Mutex};
use std::task::{Context, Poll};
use std::time::Duration;

use base64::Engine;
use pavex::Response;
use pavex::cookie::config::{CryptoAlgorithm, CryptoRule, FallbackConfig};
use pavex::cookie::{
    Key, Processor, ProcessorConfig, ResponseCookies, SameSite, extract_request_cookies,
    inject_response_cookies,
};
use pavex::request::RequestHead;
use pavex_session::config::{
    MissingServerState, ServerStateCreation, SessionCookieKind, TtlExtensionThreshold,
    TtlExtensionTrigger,
};
use pavex_session::errors::{FinalizeError, SyncError};
use pavex_session::store::errors::{
    ChangeIdError, CreateError, DeleteError, DeleteExpiredError, LoadError, UpdateError,
    UpdateTtlError,
};
use pavex_session::store::{SessionRecord, SessionRecordRef, SessionStorageBackend};
use pavex_session::{
    IncomingSession, Session, SessionConfig, SessionId, SessionStore, finalize_session,
};
use pavex_session_memory_store::InMemorySessionStore;
use serde_json::Value;

// ---- shared bookkeeping: first-seen id indices, store-operation log, scripted remaining TTL ---------

#[derive(Default)]
struct SharedInner {
    ids: Vec<SessionId>,
    log: Vec<Json>,
    rem: Option<u64>,
}

#[derive(Clone, Default)]
struct Shared(Arc<Mutex<SharedInner>>);

impl Shared {
    fn ix(&self, id: &SessionId) -> usize {
        let mut g = self.0.lock().unwrap();
        if let Some(i) = g.ids.iter().position(|x| x == id) {
            return i;
        }
        g.ids.push(*id);
        g.ids.len() - 1
    }
    fn push(&self, e: Json) {
        self.0.lock().unwrap().log.push(e);
    }
    fn take_log(&self) -> Vec<Json> {
        std::mem::take(&mut self.0.lock().unwrap().log)
    }
    fn ids(&self) -> Vec<SessionId> {
        self.0.lock().unwrap().ids.clone()
    }
}

fn state_json<'a, I>(it: I) -> Json
where
    I: Iterator<Item = (&'a std::borrow::Cow<'static, str>, &'a Value)>,
{
    let mut m = serde_json::Map::new();
    for (k, v) in it {
        m.insert(k.to_string(), v.clone());
    }
    Json::Object(m)
}

/// Recording wrapper around the real in-memory backend. `load` reports the scripted remaining TTL
/// (time is abstract in the model; the deadline arithmetic of the store is C13's business).
struct Spy {
    inner: InMemorySessionStore,
    sh: Shared,
}

impl std::fmt::Debug for Spy {
    fn fmt(&self, f: &mut std::fmt::Formatter<'_>) -> std::fmt::Result {
        f.write_str("Spy")
    }
}

#[async_trait::async_trait]
impl SessionStorageBackend for Spy {
    async fn create(&self, id: &SessionId, record: SessionRecordRef<'_>) -> Result<(), CreateError> {
        let (ttl, st) = (record.ttl.as_secs(), state_json(record.state.iter()));
        let r = self.inner.create(id, record).await;
        let k = match &r {
            Ok(()) => "ok",
            Err(CreateError::DuplicateId(_)) => "duplicate-id",
            Err(_) => "other",
        };
        self.sh.push(json!(["create", self.sh.ix(id), ttl, st, k]));
        r
    }
    async fn update(&self, id: &SessionId, record: SessionRecordRef<'_>) -> Result<(), UpdateError> {
        let (ttl, st) = (record.ttl.as_secs(), state_json(record.state.iter()));
        let r = self.inner.update(id, record).await;
        let k = match &r {
            Ok(()) => "ok",
            Err(UpdateError::UnknownIdError(_)) => "unknown-id",
            Err(_) => "other",
        };
        self.sh.push(json!(["update", self.sh.ix(id), ttl, st, k]));
        r
    }
    async fn update_ttl(&self, id: &SessionId, ttl: Duration) -> Result<(), UpdateTtlError> {
        let r = self.inner.update_ttl(id, ttl).await;
        let k = match &r {
            Ok(()) => "ok",
            Err(UpdateTtlError::UnknownId(_)) => "unknown-id",
            Err(_) => "other",
        };
        self.sh.push(json!(["update_ttl", self.sh.ix(id), ttl.as_secs(), k]));
        r
    }
    async fn load(&self, id: &SessionId) -> Result<Option<SessionRecord>, LoadError> {
        let mut r = self.inner.load(id).await;
        let k = match &r {
            Ok(Some(_)) => "some",
            Ok(None) => "none",
            Err(_) => "other",
        };
        self.sh.push(json!(["load", self.sh.ix(id), k]));
        let rem = self.sh.0.lock().unwrap().rem;
        if let (Ok(Some(rec)), Some(rem)) = (&mut r, rem) {
            rec.ttl = Duration::from_secs(rem);
        }
        r
    }
    async fn delete(&self, id: &SessionId) -> Result<(), DeleteError> {
        let r = self.inner.delete(id).await;
        let k = match &r {
            Ok(()) => "ok",
            Err(DeleteError::UnknownId(_)) => "unknown-id",
            Err(_) => "other",
        };
        self.sh.push(json!(["delete", self.sh.ix(id), k]));
        r
    }
    async fn change_id(&self, old: &SessionId, new: &SessionId) -> Result<(), ChangeIdError> {
        let r = self.inner.change_id(old, new).await;
        let k = match &r {
            Ok(()) => "ok",
            Err(ChangeIdError::UnknownId(_)) => "unknown-id",
            Err(ChangeIdError::DuplicateId(_)) => "duplicate-id",
            Err(_) => "other",
        };
        let (o, n) = (self.sh.ix(old), self.sh.ix(new));
        self.sh.push(json!(["change_id", o, n, k]));
        r
    }
    async fn delete_expired(
        &self,
        batch_size: Option<std::num::NonZeroUsize>,
    ) -> Result<usize, DeleteExpiredError> {
        self.inner.delete_expired(batch_size).await
    }
}

// ---- configuration ------------------------------------------------------------------------------------

fn s<'a>(j: &'a Json, k: &str) -> Option<&'a str> {
    j.get(k).and_then(|v| v.as_str())
}

fn session_config(cfg: &Json) -> Option<SessionConfig> {
    let mut c = SessionConfig::default();
    c.state.ttl = Duration::from_secs(cfg.get("ttl")?.as_u64()?);
    c.state.server_state_creation = match s(cfg, "creation")? {
        "never_skip" => ServerStateCreation::NeverSkip,
        "skip_if_empty" => ServerStateCreation::SkipIfEmpty,
        _ => return None,
    };
    c.state.missing_server_state = match s(cfg, "missing")? {
        "allow" => MissingServerState::Allow,
        "reject" => MissingServerState::Reject,
        _ => return None,
    };
    c.state.extend_ttl = match s(cfg, "extend")? {
        "loads_and_changes" => TtlExtensionTrigger::OnStateLoadsAndChanges,
        "changes" => TtlExtensionTrigger::OnStateChanges,
        _ => return None,
    };
    c.state.ttl_extension_threshold = match cfg.get("threshold")? {
        Json::Null => None,
        v => {
            let a = v.as_array()?;
            let (n, d) = (a.first()?.as_u64()?, a.get(1)?.as_u64()?);
            Some(TtlExtensionThreshold::new(n as f32 / d as f32).ok()?)
        }
    };
    let ck = cfg.get("cookie")?;
    c.cookie.name = s(ck, "name")?.to_string();
    c.cookie.domain = s(ck, "domain").map(str::to_string);
    c.cookie.path = s(ck, "path").map(str::to_string);
    c.cookie.secure = ck.get("secure")?.as_bool()?;
    c.cookie.http_only = ck.get("http_only")?.as_bool()?;
    c.cookie.same_site = match ck.get("same_site")? {
        Json::Null => None,
        v => Some(match v.as_str()? {
            "strict" => SameSite::Strict,
            "lax" => SameSite::Lax,
            "none" => SameSite::None,
            _ => return None,
        }),
    };
    c.cookie.kind = match s(ck, "kind")? {
        "persistent" => SessionCookieKind::Persistent,
        "session" => SessionCookieKind::Session,
        _ => return None,
    };
    Some(c)
}

/// Key table of one history: key number -> biscotti master key (generated on first use), so that
/// "the same key" in two processors of a history is the same key.
#[derive(Default)]
struct Keys(std::collections::HashMap<u64, Key>);

impl Keys {
    fn get(&mut self, n: u64) -> Key {
        self.0.entry(n).or_insert_with(Key::generate).clone()
    }
}

fn algorithm(name: &str) -> Option<Option<CryptoAlgorithm>> {
    Some(match name {
        "none" => None,
        "sign" => Some(CryptoAlgorithm::Signing),
        "encrypt" => Some(CryptoAlgorithm::Encryption),
        _ => return None,
    })
}

/// `{"alg", "name", "percent_encode"?, "key"?, "fallbacks"?: [[alg, key], ...]}` -> the real `Processor`.
fn processor(cr: &Json, keys: &mut Keys) -> Option<Processor> {
    let mut pc = ProcessorConfig::default();
    if let Some(b) = cr.get("percent_encode").and_then(|v| v.as_bool()) {
        pc.percent_encode = b;
    }
    let alg = algorithm(s(cr, "alg")?)?;
    let mut fallbacks = Vec::new();
    if let Some(fb) = cr.get("fallbacks") {
        for f in fb.as_array()? {
            let f = f.as_array()?;
            let algorithm = algorithm(f.first()?.as_str()?)??;
            let key = keys.get(f.get(1)?.as_u64()?);
            fallbacks.push(FallbackConfig { key, algorithm });
        }
    }
    if let Some(algorithm) = alg {
        pc.crypto_rules.push(CryptoRule {
            cookie_names: vec![s(cr, "name")?.to_string()],
            algorithm,
            key: keys.get(cr.get("key").and_then(|v| v.as_u64()).unwrap_or(0)),
            fallbacks,
        });
    }
    Some(pc.into())
}

// ---- the client's view of cookies -----------------------------------------------------------------------

/// `pavex_session::State` (the alias is crate-private).
type ClientMap = std::collections::HashMap<std::borrow::Cow<'static, str>, Value>;

#[derive(Clone)]
struct ClientCookie {
    /// `name=value` exactly as received in `Set-Cookie` (and sent back in `Cookie`).
    pair: String,
    id: Option<SessionId>,
}

fn head_with(cookie: Option<&str>) -> RequestHead {
    let mut head = RequestHead {
        method: http::Method::GET,
        target: "/".parse().unwrap(),
        version: http::Version::HTTP_11,
        headers: http::HeaderMap::new(),
    };
    if let Some(c) = cookie {
        if let Ok(v) = http::HeaderValue::from_str(c) {
            head.headers.insert(http::header::COOKIE, v);
        }
    }
    head
}

fn pct_decode(s: &str) -> String {
    percent_encoding::percent_decode_str(s).decode_utf8_lossy().into_owned()
}

/// `{"0": "<uuid>", "1": {..}}`
fn parse_wire(s: &str) -> Option<(SessionId, Json)> {
    let v: Json = serde_json::from_str(s).ok()?;
    let o = v.as_object()?;
    let id: SessionId = serde_json::from_value(o.get("0")?.clone()).ok()?;
    let client = o.get("1").cloned().unwrap_or_else(|| json!({}));
    client.as_object()?;
    Some((id, client))
}

/// What the bytes on the wire really are, judged without asking the processor.
fn protection_of(raw_value: &str) -> &'static str {
    if raw_value.is_empty() || parse_wire(&pct_decode(raw_value)).is_some() {
        return "plain";
    }
    if let Ok(bytes) = base64::prelude::BASE64_URL_SAFE_NO_PAD.decode(raw_value) {
        if bytes.len() >= 32 {
            if let Ok(tail) = std::str::from_utf8(&bytes[32..]) {
                if tail.is_empty() || parse_wire(tail).is_some() {
                    return "signed";
                }
            }
        }
    }
    "encrypted"
}

// ---- Debug output must not contain any session id ----------------------------------------------------------

fn is_hex(b: u8) -> bool {
    b.is_ascii_hexdigit()
}

/// Any UUID-looking token (hyphenated 8-4-4-4-12 or a run of 32 hex digits).
fn has_uuid_like(sv: &str) -> bool {
    let b = sv.as_bytes();
    let n = b.len();
    let mut i = 0;
    while i < n {
        if is_hex(b[i]) {
            let mut j = i;
            while j < n && is_hex(b[j]) {
                j += 1;
            }
            if j - i >= 32 {
                return true;
            }
            if j - i == 8 && i + 36 <= n {
                let t = &b[i..i + 36];
                let ok = t.iter().enumerate().all(|(p, c)| match p {
                    8 | 13 | 18 | 23 => *c == b'-',
                    _ => is_hex(*c),
                });
                if ok {
                    return true;
                }
            }
            i = j;
        } else {
            i += 1;
        }
    }
    false
}

fn leaks(debug: &str, ids: &[SessionId]) -> bool {
    has_uuid_like(debug)
        || ids.iter().any(|id| {
            let u = id.inner();
            debug.contains(&u.to_string()) || debug.contains(&u.simple().to_string())
        })
}

// ---- operations ----------------------------------------------------------------------------------------

/// `Some(v)` is reported as `[v]` so that a stored JSON `null` differs from "no value".
fn opt(v: Option<Value>) -> Json {
    match v {
        Some(v) => json!([v]),
        None => Json::Null,
    }
}

fn sync_err_kind(e: &SyncError) -> &'static str {
    match e {
        SyncError::CreateError(CreateError::DuplicateId(_)) => "create:duplicate-id",
        SyncError::CreateError(_) => "create:other",
        SyncError::UpdateError(UpdateError::UnknownIdError(_)) => "update:unknown-id",
        SyncError::UpdateError(_) => "update:other",
        SyncError::DeleteError(DeleteError::UnknownId(_)) => "delete:unknown-id",
        SyncError::DeleteError(_) => "delete:other",
        SyncError::UpdateTtlError(UpdateTtlError::UnknownId(_)) => "update_ttl:unknown-id",
        SyncError::UpdateTtlError(_) => "update_ttl:other",
        SyncError::ChangeIdError(ChangeIdError::UnknownId(_)) => "change_id:unknown-id",
        SyncError::ChangeIdError(ChangeIdError::DuplicateId(_)) => "change_id:duplicate-id",
        SyncError::ChangeIdError(_) => "change_id:other",
        _ => "other",
    }
}

async fn do_op(session: &mut Session<'_>, op: &Json) -> Json {
    let a = match op.as_array() {
        Some(a) if !a.is_empty() => a,
        _ => return json!({"bad-op": op}),
    };
    let name = a[0].as_str().unwrap_or("");
    let key = a.get(1).and_then(|v| v.as_str()).unwrap_or("").to_string();
    let val = a.get(2).cloned().unwrap_or(Json::Null);
    let le = |_e: LoadError| json!({"err": "load"});
    match name {
        "s.get" => session.get_raw(&key).await.map(|v| opt(v.cloned())).unwrap_or_else(le),
        "s.get_t" => match session.get::<Value>(&key).await {
            Ok(v) => opt(v),
            Err(_) => json!({"err": "get"}),
        },
        "s.insert" => session.insert_raw(key, val).await.map(opt).unwrap_or_else(le),
        "s.insert_t" => match session.insert(key, val).await {
            Ok(v) => opt(v),
            Err(_) => json!({"err": "insert"}),
        },
        "s.remove" => session.remove_raw(&key).await.map(opt).unwrap_or_else(le),
        "s.remove_t" => match session.remove::<Value>(&key).await {
            Ok(v) => opt(v),
            Err(_) => json!({"err": "remove"}),
        },
        "s.is_empty" => session.is_empty().await.map(Json::Bool).unwrap_or_else(le),
        "s.clear" => session.clear().await.map(|_| Json::Null).unwrap_or_else(le),
        "delete" => {
            session.delete();
            Json::Null
        }
        "cycle" => {
            session.cycle_id();
            Json::Null
        }
        "invalidate" => {
            session.invalidate();
            Json::Null
        }
        "is_invalidated" => Json::Bool(session.is_invalidated()),
        "sync" => match session.sync().await {
            Ok(()) => json!("ok"),
            Err(e) => json!({"err": sync_err_kind(&e)}),
        },
        "force_load" => session.force_load().await.map(|_| Json::Null).unwrap_or_else(le),
        "c.get" => opt(session.client().get_raw(&key).cloned()),
        "c.get_m" => opt(session.client_mut().get_raw(&key).cloned()),
        "c.get_t" => match session.client().get::<Value>(&key) {
            Ok(v) => opt(v),
            Err(_) => json!({"err": "get"}),
        },
        "c.is_empty" => Json::Bool(session.client().is_empty()),
        "c.is_empty_m" => Json::Bool(session.client_mut().is_empty()),
        "c.insert" => opt(session.client_mut().insert_raw(key, val)),
        "c.insert_t" => match session.client_mut().insert(key, val) {
            Ok(v) => opt(v),
            Err(_) => json!({"err": "insert"}),
        },
        "c.remove" => opt(session.client_mut().remove_raw(&key)),
        "c.remove_t" => match session.client_mut().remove::<Value>(&key) {
            Ok(v) => opt(v),
            Err(_) => json!({"err": "remove"}),
        },
        "c.clear" => {
            session.client_mut().clear();
            Json::Null
        }
        _ => json!({"bad-op": op}),
    }
}

// ---- panics inside one request are an answer for that request, not for the history ------------------------

struct CatchUnwind<F>(Pin<Box<F>>);

impl<F: Future> Future for CatchUnwind<F> {
    type Output = Result<F::Output, ()>;
    fn poll(mut self: Pin<&mut Self>, cx: &mut Context<'_>) -> Poll<Self::Output> {
        let inner = &mut self.0;
        match std::panic::catch_unwind(std::panic::AssertUnwindSafe(|| inner.as_mut().poll(cx))) {
            Ok(Poll::Ready(v)) => Poll::Ready(Ok(v)),
            Ok(Poll::Pending) => Poll::Pending,
            Err(_) => Poll::Ready(Err(())),
        }
    }
}

struct SetCookie {
    name: String,
    raw_value: String,
    attrs: Vec<(String, Option<String>)>,
}

fn parse_set_cookie(h: &str) -> Option<SetCookie> {
    let mut parts = h.split(';');
    let (n, v) = parts.next()?.split_once('=')?;
    let attrs = parts
        .map(|p| {
            let p = p.trim();
            match p.split_once('=') {
                Some((k, v)) => (k.to_ascii_lowercase(), Some(v.to_string())),
                None => (p.to_ascii_lowercase(), None),
            }
        })
        .collect();
    Some(SetCookie { name: n.trim().to_string(), raw_value: v.trim().to_string(), attrs })
}

impl SetCookie {
    fn attr(&self, k: &str) -> Option<&Option<String>> {
        self.attrs.iter().find(|(a, _)| a == k).map(|(_, v)| v)
    }
    fn attr_str(&self, k: &str) -> Json {
        match self.attr(k) {
            Some(Some(v)) => json!(v),
            _ => Json::Null,
        }
    }
}

async fn history(case: Json) -> Json {
    let Some(cfg) = case.get("cfg") else { return json!({"r": "bad-case"}) };
    let Some(config) = session_config(cfg) else {
        return json!({"r": "bad-case"});
    };
    let Some(requests) = case.get("requests").and_then(|v| v.as_array()) else {
        return json!({"r": "bad-case"});
    };
    // one processor per request: the crypto configuration may change between the requests of a
    // history (rotation); `crypto` of the request, else the one of the history's configuration
    let mut keys = Keys::default();
    let mut processors = Vec::new();
    for rq in requests {
        let cr = match rq.get("crypto") {
            Some(Json::Null) | None => cfg.get("crypto"),
            c => c,
        };
        match cr.and_then(|cr| processor(cr, &mut keys)) {
            Some(p) => processors.push(p),
            None => return json!({"r": "bad-case"}),
        }
    }
    let sh = Shared::default();
    let inner = InMemorySessionStore::new();
    let store = SessionStore::new(Spy { inner: inner.clone(), sh: sh.clone() });

    let mut jar: Option<ClientCookie> = None;
    let mut issued: Vec<Option<ClientCookie>> = Vec::new();
    let mut out = Vec::new();

    for (rq, processor) in requests.iter().zip(processors.iter()) {
        // `{"parts": j, "client": {..}}`: the incoming session is assembled by hand
        // (`IncomingSession::from_parts`) from the id of the j-th issued cookie and the given state
        let parts: Option<(Option<SessionId>, ClientMap)> = match rq.get("src") {
            Some(Json::Object(o)) => {
                let id = o
                    .get("parts")
                    .and_then(|v| v.as_u64())
                    .and_then(|i| issued.get(i as usize).cloned())
                    .flatten()
                    .and_then(|c: ClientCookie| c.id);
                let mut st = ClientMap::new();
                if let Some(m) = o.get("client").and_then(|v| v.as_object()) {
                    for (k, v) in m {
                        st.insert(k.clone().into(), v.clone());
                    }
                }
                Some((id, st))
            }
            _ => None,
        };
        let presented: Option<ClientCookie> = match rq.get("src") {
            Some(Json::Object(_)) => None,
            Some(Json::String(x)) if x == "none" => None,
            // the cookie in the jar with its value replaced by garbage: must be treated as no cookie
            Some(Json::String(x)) if x == "tampered" => jar.as_ref().and_then(|c| {
                c.pair.split_once('=').map(|(n, _)| ClientCookie { pair: format!("{n}=x"), id: None })
            }),
            Some(Json::Number(n)) => n
                .as_u64()
                .and_then(|i| issued.get(i as usize).cloned())
                .flatten(),
            _ => jar.clone(),
        };
        sh.0.lock().unwrap().rem = rq.get("rem").and_then(|v| v.as_u64());
        let empty = Vec::new();
        let ops = rq.get("ops").and_then(|v| v.as_array()).unwrap_or(&empty);

        let head = head_with(presented.as_ref().map(|c| c.pair.as_str()));
        let (incoming, in_id) = match parts {
            Some((Some(id), st)) => (Some(IncomingSession::from_parts(id, st)), Some(id)),
            Some((None, _)) => (None, None),
            None => (
                match extract_request_cookies(&head, processor) {
                    Ok(cookies) => IncomingSession::extract(&cookies, &config.cookie),
                    Err(_) => None,
                },
                presented.as_ref().and_then(|c| c.id),
            ),
        };
        let in_ix = match (&incoming, in_id) {
            (Some(_), Some(id)) => json!(sh.ix(&id)),
            (Some(_), None) => json!("unknown"),
            (None, _) => Json::Null,
        };
        // external expiry of the record of the session this request starts with
        if rq.get("expire").and_then(|v| v.as_bool()).unwrap_or(false) {
            if let (Some(_), Some(id)) = (&incoming, in_id) {
                let _ = inner.delete(&id).await;
            }
        }

        let results: RefCell<Vec<Json>> = RefCell::new(Vec::new());
        let debugs: RefCell<Vec<String>> = RefCell::new(Vec::new());
        let fut = async {
            let mut session = Session::new(&store, &config, incoming);
            debugs.borrow_mut().push(format!("{session:?}"));
            for op in ops {
                let r = do_op(&mut session, op).await;
                results.borrow_mut().push(r);
                debugs.borrow_mut().push(format!("{session:?}"));
            }
            let mut response_cookies = ResponseCookies::new();
            match finalize_session(Response::ok(), &mut response_cookies, processor, session).await {
                Ok(resp) => {
                    let n_cookies = response_cookies.iter().count();
                    match inject_response_cookies(resp, response_cookies, processor) {
                        Ok(resp) => {
                            let hs: Vec<String> = resp
                                .headers()
                                .get_all(http::header::SET_COOKIE)
                                .iter()
                                .filter_map(|h| h.to_str().ok().map(str::to_string))
                                .collect();
                            Ok((n_cookies, hs))
                        }
                        Err(_) => Err(("inject".to_string(), 0)),
                    }
                }
                Err(e) => Err((
                    match &e {
                        FinalizeError::SerializationError(_) => "serialization".to_string(),
                        FinalizeError::SyncErr(e) => format!("sync:{}", sync_err_kind(e)),
                        FinalizeError::EncryptionRequired { .. } => "encryption-required".to_string(),
                        FinalizeError::CryptoRequired { .. } => "crypto-required".to_string(),
                        _ => "other".to_string(),
                    },
                    // the request failed: how many cookies did the middleware leave behind?
                    response_cookies.iter().count(),
                )),
            }
        };
        let outcome = CatchUnwind(Box::pin(fut)).await;

        let mut new_cookie: Option<Option<ClientCookie>> = None; // Some(None) = removal
        let fin = match outcome {
            Err(()) => json!({"r": "panic"}),
            Ok(Err((kind, left))) => json!({"r": "err", "kind": kind, "set": left}),
            Ok(Ok((_, hs))) if hs.is_empty() => json!({"r": "none"}),
            Ok(Ok((n, hs))) if hs.len() != 1 || n != 1 => json!({"r": "several-cookies", "n": hs.len()}),
            Ok(Ok((_, hs))) => match parse_set_cookie(&hs[0]) {
                None => json!({"r": "unparseable-set-cookie"}),
                Some(sc) => {
                    let name = pct_decode(&sc.name);
                    let prot = protection_of(&sc.raw_value);
                    let removal = matches!(sc.attr("max-age"), Some(Some(v)) if v == "0") || sc.attr("expires").is_some();
                    if removal {
                        new_cookie = Some(None);
                        json!({"r": "removal", "prot": if sc.raw_value.is_empty() { "plain" } else { "protected" },
                               "attrs": {"name": name, "domain": sc.attr_str("domain"), "path": sc.attr_str("path")}})
                    } else {
                        // what a server holding the same processor reads back from this cookie
                        let pair = format!("{}={}", sc.name, sc.raw_value);
                        let head = head_with(Some(&pair));
                        let wire = extract_request_cookies(&head, processor)
                            .ok()
                            .and_then(|cs| cs.get(&config.cookie.name).map(|c| c.value().to_string()))
                            .and_then(|v| parse_wire(&v));
                        let (id, client) = match wire {
                            Some((id, client)) => (Some(id), client),
                            None => (None, Json::Null),
                        };
                        new_cookie = Some(Some(ClientCookie { pair, id }));
                        let max_age = match sc.attr("max-age") {
                            Some(Some(v)) => v.parse::<u64>().map(|n| json!(n)).unwrap_or(json!(v)),
                            _ => Json::Null,
                        };
                        json!({"r": "set", "id": id.map(|i| json!(sh.ix(&i))).unwrap_or(Json::Null), "client": client, "prot": prot,
                               "attrs": {"name": name, "domain": sc.attr_str("domain"), "path": sc.attr_str("path"),
                                         "secure": sc.attr("secure").is_some(), "http_only": sc.attr("httponly").is_some(),
                                         "same_site": match sc.attr_str("samesite") { Json::String(x) => json!(x.to_ascii_lowercase()), o => o },
                                         "max_age": max_age}})
                    }
                }
            },
        };
        jar = match &new_cookie {
            Some(c) => c.clone(),
            None => presented.clone().filter(|c| c.id.is_some()),
        };
        issued.push(new_cookie.flatten());

        let ids = sh.ids();
        let leak = debugs.borrow().iter().any(|d| leaks(d, &ids));
        let log = sh.take_log();
        // store dump, through the unwrapped backend (not logged)
        let mut dump = Vec::new();
        for (i, id) in sh.ids().iter().enumerate() {
            if let Ok(Some(rec)) = inner.load(id).await {
                dump.push(json!([i, state_json(rec.state.iter())]));
            }
        }
        out.push(json!({"in": in_ix, "res": results.into_inner(), "fin": fin, "log": log, "store": dump, "leak": leak}));
    }
    json!({"r": "ok", "reqs": out})
}

fn main() {
    match pxh::which().as_str() {
        "session" => pxh::serve_async(history),
        other => {
            eprintln!("sess: unknown model {other:?}");
            std::process::exit(2)
        }
    }
}
