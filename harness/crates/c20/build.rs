//! Lifts the host-normalisation statement out of the `quote!` block of pavexc's
//! `codegen/router.rs::domain_router` (the code every generated server runs before it consults
//! its domain router) into a plain function, so that the harness executes the *current* text of
//! that statement rather than a copy. Any shape we do not recognise fails the build (broken tie).
use std::path::PathBuf;

fn main() {
    let manifest = PathBuf::from(std::env::var("CARGO_MANIFEST_DIR").unwrap());
    let src = manifest.join("../../../.repo/compiler/pavexc/src/compiler/codegen/router.rs");
    println!("cargo:rerun-if-changed={}", src.display());
    println!("cargo:rerun-if-changed=build.rs");
    let text = std::fs::read_to_string(&src).expect("codegen/router.rs not found");
    let start_marker = "let host: Option<String> = #request";
    let start = text.find(start_marker).expect("host normalisation statement not found in codegen/router.rs");
    assert!(text[start + 1..].find(start_marker).is_none(), "host normalisation statement is not unique");
    // The statement ends at the first `;` at bracket depth 0 (line comments skipped, char literals skipped).
    let bytes = text.as_bytes();
    let mut i = start;
    let mut depth = 0i32;
    let end = loop {
        assert!(i < bytes.len(), "unterminated host normalisation statement");
        let c = bytes[i];
        if c == b'/' && bytes.get(i + 1) == Some(&b'/') {
            while bytes[i] != b'\n' { i += 1; }
            continue;
        }
        if c == b'\'' {
            // char literal such as '.' or '\''
            let mut j = i + 1;
            if bytes[j] == b'\\' { j += 1; }
            j += 1;
            assert!(bytes[j] == b'\'', "unexpected quote in host normalisation statement");
            i = j + 1;
            continue;
        }
        if c == b'"' {
            let mut j = i + 1;
            while bytes[j] != b'"' { if bytes[j] == b'\\' { j += 1; } j += 1; }
            i = j + 1;
            continue;
        }
        match c {
            b'(' | b'[' | b'{' => depth += 1,
            b')' | b']' | b'}' => depth -= 1,
            b';' if depth == 0 => break i,
            _ => {}
        }
        i += 1;
    };
    let stmt = &text[start..=end];
    // `#request.headers().get(#pavex::http::header::HOST)` becomes the parameter `hdr`.
    let compact: String = stmt.to_string();
    let head_re = ["#request", ".headers()", ".get(#pavex::http::header::HOST)"];
    let mut rest = compact.as_str();
    let mut out = String::new();
    let p0 = rest.find(head_re[0]).unwrap();
    out.push_str(&rest[..p0]);
    rest = &rest[p0 + head_re[0].len()..];
    for part in &head_re[1..] {
        let t = rest.trim_start();
        assert!(t.starts_with(part), "host statement does not start with request.headers().get(HOST): {stmt}");
        rest = &t[part.len()..];
    }
    out.push_str("hdr");
    out.push_str(rest);
    let out = out.replace("#pavex::http::", "::http::");
    assert!(!out.contains('#'), "unrecognised interpolation left in host statement: {out}");
    let code = format!(
        "/// Extracted verbatim from pavexc's codegen/router.rs (see build.rs).\n\
         pub fn generated_host(hdr: Option<&::http::HeaderValue>) -> Option<String> {{\n{out}\nhost\n}}\n"
    );
    let dst = PathBuf::from(std::env::var("OUT_DIR").unwrap()).join("generated_host.rs");
    std::fs::write(dst, code).unwrap();
}
