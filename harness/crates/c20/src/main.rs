//! C20 in-process driver: the real `DomainGuard` (through the cfg(pavex_verif) hook in pavexc),
//! the real `matchit` router, and the host normalisation statement lifted from pavexc's codegen.
use pxh::{Json, json};
use std::collections::HashMap;

include!(concat!(env!("OUT_DIR"), "/generated_host.rs"));

/// `InvalidDomainConstraint` Debug rendering -> error kind (variant, plus the label violation).
fn err_kind(dbg: &str) -> String {
    let variant: String = dbg.chars().take_while(|c| c.is_ascii_alphanumeric()).collect();
    if variant == "InvalidDnsLabel" {
        if let Some(p) = dbg.find("violations: ") {
            let v: String = dbg[p + "violations: ".len()..]
                .chars()
                .take_while(|c| c.is_ascii_alphanumeric())
                .collect();
            return format!("label:{v}");
        }
    }
    variant
}

fn guard_json(s: &str) -> Json {
    match pavexc::verif::domain_guard(s) {
        Ok((norm, pattern)) => json!({"r": "ok", "norm": norm, "pattern": pattern}),
        Err(e) => json!({"r": "err", "kind": err_kind(&e)}),
    }
}

fn route(req: &Json) -> Json {
    let Some(guards) = req.get("guards").and_then(|g| g.as_array()) else { return json!({"r": "bad-op"}) };
    let Some(guards) = guards.iter().map(|g| g.as_str().map(str::to_owned)).collect::<Option<Vec<String>>>() else {
        return json!({"r": "bad-op"});
    };
    // `header` (the Host header as sent, possibly with a port) is what the generated code sees; `host` (without the port) is
    // what the model and the oracle reason about (port stripping by http::uri::Authority is assumed, not modelled)
    let Some(host) = req.get("header").or_else(|| req.get("host")).and_then(|h| h.as_str()) else { return json!({"r": "bad-op"}) };
    let verdicts: Vec<Json> = guards
        .iter()
        .map(|g| match pavexc::verif::domain_guard(g) {
            Ok(_) => json!("ok"),
            Err(e) => json!(err_kind(&e)),
        })
        .collect();
    let ordered = pavexc::verif::domain_guard_patterns_in_router_order(&guards);
    // As `DomainRouter::detect_domain_conflicts` does (and as the generated `domain_router()` does,
    // with `unwrap`): insert every pattern, in `BTreeMap<DomainGuard, _>` order.
    let mut router = matchit::Router::new();
    let mut pattern2guard: HashMap<String, usize> = HashMap::new();
    let mut ins = Vec::new();
    let mut all_ok = true;
    for (i, (_, p)) in ordered.iter().enumerate() {
        pattern2guard.insert(p.clone(), i);
        match router.insert(p.clone(), i as u32) {
            Ok(()) => ins.push(json!("ok")),
            Err(matchit::InsertError::Conflict { with }) => {
                all_ok = false;
                // pavexc indexes `pattern2guard[&with]`: an unknown `with` would be a panic there.
                ins.push(json!({"conflict": true, "with_known": pattern2guard.contains_key(&with)}));
                // pavexc goes on to collect further diagnostics; the verdict is decided here.
                break;
            }
            Err(e) => {
                all_ok = false;
                ins.push(json!({"invalid": format!("{e:?}")}));
                break;
            }
        }
    }
    let norm = match http::HeaderValue::from_bytes(host.as_bytes()) {
        Ok(hv) => generated_host(Some(&hv)),
        Err(_) => return json!({"r": "bad-op", "why": "not a header value"}),
    };
    let each: Vec<bool> = ordered
        .iter()
        .map(|(_, p)| {
            let mut r = matchit::Router::new();
            r.insert(p.clone(), ()).is_ok() && norm.as_deref().map(|h| r.at(h).is_ok()).unwrap_or(false)
        })
        .collect();
    let at: Option<u32> = if all_ok { norm.as_deref().and_then(|h| router.at(h).ok().map(|m| *m.value)) } else { None };
    // What the code generator really emits for `domain_router()`: the same patterns, with the position of the guard
    // in `BTreeMap` order as domain id.
    let emitted = pavexc::verif::generated_domain_router_inserts(&guards);
    let emitted_ok = emitted.len() == ordered.len()
        && emitted.iter().zip(ordered.iter()).enumerate().all(|(i, ((p, id), (_, q)))| p == q && *id == i as u32);
    json!({
        "r": "route",
        "emitted": emitted_ok,
        "verdicts": verdicts,
        "order": ordered.iter().map(|(g, _)| g.clone()).collect::<Vec<_>>(),
        "patterns": ordered.iter().map(|(_, p)| p.clone()).collect::<Vec<_>>(),
        "ins": ins,
        "host": norm,
        "each": each,
        "at": at,
    })
}

fn handle(req: &Json) -> Json {
    match req.get("op").and_then(|o| o.as_str()) {
        Some("guard") => match req.get("s").and_then(|s| s.as_str()) {
            Some(s) => guard_json(s),
            None => json!({"r": "bad-op"}),
        },
        Some("route") => route(req),
        _ => json!({"r": "bad-op"}),
    }
}

fn main() {
    match pxh::which().as_str() {
        "domain" => pxh::serve(handle),
        other => {
            eprintln!("c20: unknown model {other:?}");
            std::process::exit(2)
        }
    }
}
